"""C14 (KX engine with IEEE-754 terms): CellList.get_atoms lowered from celllist.pyx over symbolic float32 data.

Encoded from the source on every run: CellList.get_atoms (radius -> cell radius, squared radius, Euclidean filter),
CellList._get_cell_index (float32 subtraction, division, truncation), squared_distance.  The pointer-array scan of
_find_adjacent_atoms is represented by its contract over the lowered _get_cell_index (see STUBS).  Coordinates, radius
and minimum corner are z3 FloatingPoint terms (binary32, round-to-nearest-even), so rounding at cell borders is part
of the model.

  ob_grid   : coordinates / radii on a dyadic grid (multiples of 1/8, |x| < 16): all float32 operations are exact, so
              the claim is the property itself: atom returned <=> integer-exact distance <= radius; scalar and
              per-query radii; several cell sizes (powers of two and others).
  ob_float  : arbitrary finite float32 values on one axis: an atom that passes the float32 distance filter and is strictly
              within the radius in float64 (hence exactly) is returned.
  ob_bounds : every atom's cell index lies inside the allocated grid (cell_count formula of __cinit__).
"""
import math
import struct

import z3

from vf.kx.kernel import Kernel, SymArray, _SymNP, _DType
from vf.kx.freshness import binary_state
from vf.kx import rt
from vf.kx.rt import CInt, View, MemorySafety
from vf.kx.fp import CFloat, F32, F64, RNE, RTZ, fp_value
from vf.kx.rat import CRat
from vf.sx.core import Escape
from vf.sx.ob import Case
from vf.sx import pyload
from vf.kx import ifconv

I32 = rt.TYPES["int32"]
STUBS = ["CellList._get_atoms_in_cells/_find_adjacent_atoms (pointer arrays) -> contract: every atom whose cell index, computed by the LOWERED _get_cell_index, lies within +-cell_radius of the query's cell index in each dimension (atoms' cells are inside the grid: ob_bounds)",
         "_prepare_vectorization -> (coord, radii, multi flags) passed through; _post_process -> identity; non-periodic, no selection",
         "numpy float32 array arithmetic -> element-wise binary32 terms (numpy 2 promotion: float32 array op Python float -> float32)"]
_k = {}


class FArr(SymArray):
    """float32 ndarray stand-in: nested lists of CFloat"""

    def __init__(self, data):
        SymArray.__init__(self, data, None)

    def _el(self, o, f):
        if isinstance(o, FArr):
            return FArr([f(a, b) for a, b in zip(self.data, o.data)])
        return FArr([f(a, o) for a in self.data])

    def __mul__(self, o): return self._el(o, lambda a, b: a * b)
    def __truediv__(self, o): return self._el(o, lambda a, b: a / b)
    def __sub__(self, o): return self._el(o, lambda a, b: a - b)
    def __add__(self, o): return self._el(o, lambda a, b: a + b)

    def __getitem__(self, i):
        if isinstance(i, CInt):
            i = rt.concretize(i, range(len(self.data)))
        if isinstance(i, tuple):
            d = self.data
            for j in i:
                j = rt.concretize(j, range(len(d))) if isinstance(j, CInt) else j
                d = d[j]
            return d
        r = self.data[i]
        return FArr(r) if isinstance(r, list) else r

    def astype(self, dtype, copy=True):
        name = dtype.name if isinstance(dtype, _DType) else str(dtype)
        if name.startswith("float"):
            return self
        return SymArray([x.to_cint(name) for x in self.data], rt.ctype(name))


class _FNP(_SymNP):
    float32 = _DType("float32")

    def ceil(self, x):
        if isinstance(x, FArr):
            return FArr([v.ceil() for v in x.data])
        if isinstance(x, (CFloat, CRat)):
            return x.ceil()
        return math.ceil(x)

    def full(self, shape, fill, dtype=None):
        name = dtype.name if isinstance(dtype, _DType) else str(dtype)
        if name.startswith("float"):
            n = shape.e if isinstance(shape, CInt) else shape
            return FArr([fill if isinstance(fill, (CFloat, CRat)) else CFloat(fill) for _ in range(int(n))])
        return _SymNP.full(self, shape, fill, dtype)

    def asarray(self, x, dtype=None):
        if isinstance(x, View):
            return _Rows(x.data)
        return x


class _Rows:
    """np.asarray(int view)[:, :n] -> the rows cut to n entries"""

    def __init__(self, rows):
        self.rows = rows

    def __getitem__(self, idx):
        a, b = idx
        return _Rows([_Row(r, b.stop) for r in self.rows[a]])


class _Row(list):
    """one result row with its (possibly symbolic) length: entries at or beyond `stop` are cut off"""

    def __init__(self, items, stop):
        list.__init__(self, items)
        self.stop = stop


def _sx_int(x, *a, **k):
    if isinstance(x, (CFloat, CRat)):
        return x.to_cint("int64")
    return pyload.sx_int(x, *a, **k)


def kernel(mode="bv"):
    """mode 'bv': C ints as bit-vectors next to IEEE terms; mode 'int': C ints as integers next to exact rationals"""
    if mode not in _k:
        k = Kernel("structure/celllist.pyx", [("CellList", "get_atoms"), ("CellList", "_get_cell_index"), "squared_distance"],
                   mode=mode, package="structure", unwind=8, extra_passes={"get_atoms": [ifconv.ifconv_pass]},
                   extra_ns=dict(ifconv.NS, np=_FNP(), _empty_result=lambda m: None, move_inside_box=None, __sx_int__=_sx_int,
                                 _prepare_vectorization=lambda coord, radius, dt: (coord, radius.arr, True, radius.multi)))
        _k[mode] = k
    return _k[mode]


def state():
    k = kernel()
    return binary_state(k.path, [(m["lineno"], m["nlines"]) for m in k.meta.values()])


class _Radius:
    def __init__(self, arr, multi):
        self.arr, self.multi = arr, multi


class _Self:
    """the fields of a non-periodic CellList as the lowered methods see them"""

    extra_layers = 0

    def __init__(self, k, atoms, mins, cs):
        self._k = k
        self._periodic = False
        self._box = None
        self._coord = View([list(a) for a in atoms], None, False, False, "_coord")
        self._min_coord = View(list(mins), None, False, False, "_min_coord")
        self._cellsize = cs if isinstance(cs, (CFloat, CRat)) else CFloat(cs)
        self.cells = []          # per query: (i,j,k) of the query and of every atom, for the bounds obligation

    def cell_of(self, p):
        i, j, kk = [None], [None], [None]
        self._k["_get_cell_index"](self, p[0], p[1], p[2], i, j, kk)
        return i[0], j[0], kk[0]

    def _get_atoms_in_cells(self, coord, cell_radii, is_multi_radius):
        rows = []
        for q in range(len(coord.data)):
            cq = self.cell_of(coord.data[q])
            cr = cell_radii.data[q] + self.extra_layers
            row = []
            for a, p in enumerate(self._coord.data):
                ca = self.cell_of(p)
                inside = True
                for d in range(3):
                    lo = (ca[d] >= cq[d] - cr)
                    hi = (ca[d] <= cq[d] + cr)
                    inside = _and(inside, lo, hi)
                row.append(rt._merge(inside, CInt.const(a, I32), CInt.const(-1, I32)) if not isinstance(inside, bool)
                           else CInt.const(a if inside else -1, I32))
            rows.append(row)
        return View(rows, I32, False, False, "all_indices")

    def _post_process(self, rows, as_mask, is_multi_coord):
        return rows.rows


def _and(*xs):
    from vf.kx.ifconv import g_and
    return g_and(*xs)


# ------------------------------------------------------------------------------ numerics helpers
def f32(x):
    return struct.unpack("f", struct.pack("f", x))[0]


def grid(bv):
    """signed bit-vector c -> the float32 term c / 8 (exact)"""
    w = bv.size()
    return CFloat(z3.fpMul(RNE, z3.fpSignedToFP(RNE, z3.SignExt(32 - w, bv), F32), z3.FPVal(0.125, F32)), F32)


def run_get_atoms(atoms, mins, cs, queries, radii, multi, mode="bv"):
    k = kernel(mode)
    k._activate()
    me = _Self(k, atoms, mins, cs)
    coord = FArr([list(q) for q in queries])
    rad = FArr(list(radii)) if multi else FArr([radii[0]] * len(queries))
    rt.DEFER_SAFETY, rt.SAFETY[:] = True, []
    try:
        rows = k["get_atoms"](me, coord, _Radius(rad, multi), False)
    finally:
        rt.DEFER_SAFETY = False
    return rows


def safety():
    """bounds obligations collected while the if-converted kernel ran (guards -> index inside the view)"""
    return list(rt.SAFETY)


def row_members(row, n):
    """for a concrete-length row of CInt entries: per atom a z3 Bool 'a is listed'"""
    out = []
    stop = getattr(row, "stop", None)
    for a in range(n):
        hits = []
        for j, x in enumerate(row):
            e = x.e if isinstance(x, CInt) else x
            h = z3.BoolVal(e == a) if isinstance(e, int) else e == a
            if stop is not None:
                inside = (stop > j) if isinstance(stop, CInt) else (j < stop)
                inside = inside.e if hasattr(inside, "e") else z3.BoolVal(bool(inside))
                h = z3.And(inside, h)
            hits.append(h)
        out.append(z3.Or(*hits) if hits else z3.BoolVal(False))
    return out


# ----------------------------------------------------------------------------------- real code
def real_query(w):
    """replay on the compiled CellList: atoms, cell size, queries, radii -> returned index sets vs float64 distances"""
    import numpy as np
    import biotite.structure as struc
    if state() != "fresh":
        return source_query(w)
    atoms = np.array(w["atoms"], dtype=np.float32)
    queries = np.array(w["queries"], dtype=np.float32)
    radii = [f32(r) for r in w["radii"]]
    cl = struc.CellList(atoms, f32(w["cs"]))
    if w["multi"]:
        res = cl.get_atoms(queries, np.array(radii, dtype=np.float32))
    else:
        res = cl.get_atoms(queries, radii[0])
    bad = []
    for qi, q in enumerate(queries):
        r = radii[qi] if w["multi"] else radii[0]
        got = {int(x) for x in res[qi] if x != -1}
        msg = judge(w["atoms"], list(map(float, q)), r, got)
        if msg:
            bad.append(msg)
    return not bad, "; ".join(bad) or "ok"


def judge(atoms, q, r, got, tag=""):
    """An atom must be returned if it is within the radius BOTH in float64 and by the float32 distance formula of the
    source (squared_distance <= radius * radius), must not be returned if it is outside by both; where the two
    disagree (the pair sits on the float32 rounding edge of the radius) either answer is accepted."""
    import numpy as np
    f = np.float32
    must, may = set(), set()
    for a, p in enumerate(atoms):
        p32 = [f(c) for c in p]
        q32 = [f(c) for c in q]
        d64 = math.sqrt(sum((float(x) - float(y)) ** 2 for x, y in zip(p32, q32)))
        dx, dy, dz = (p32[0] - q32[0]), (p32[1] - q32[1]), (p32[2] - q32[2])
        in32 = bool(f(f(dx * dx + dy * dy) + dz * dz) <= f(f(r) * f(r)))
        in64 = d64 <= float(f(r))
        if in32 and in64:
            must.add(a)
        elif in32 or in64:
            may.add(a)
    if must - got or got - must - may:
        return f"{tag}query {q} radius {r}: returned {sorted(got)}, atoms within the radius {sorted(must)}" + (f" (on the rounding edge: {sorted(may)})" if may else "")
    return None


def source_query(w):
    atoms = [[CFloat(f32(c)) for c in a] for a in w["atoms"]]
    mins = [CFloat(min(f32(a[d]) for a in w["atoms"])) for d in range(3)]
    queries = [[CFloat(f32(c)) for c in q] for q in w["queries"]]
    radii = [CFloat(f32(r)) for r in w["radii"]]
    try:
        rows = run_get_atoms(atoms, mins, f32(w["cs"]), queries, radii, w["multi"])
    except MemorySafety as e:
        return False, f"[source-level] {e}"
    bad = []
    for qi, q in enumerate(w["queries"]):
        r = f32(w["radii"][qi if w["multi"] else 0])
        stop = rows[qi].stop
        stop = _cv(stop)
        got = {_cv(x) for x in list(rows[qi])[:stop]} - {-1}
        msg = judge(w["atoms"], q, r, got, "[source-level] ")
        if msg:
            bad.append(msg)
    return not bad, "; ".join(bad) or "ok"


def _cv(x):
    e = x.e if isinstance(x, CInt) else x
    return int(e) if isinstance(e, int) else z3.simplify(e).as_signed_long()


def validate():
    st = state()
    if st != "fresh":
        return f"skipped: binary_state={st}"
    n = 0
    for w in [dict(atoms=[[0, 0, 0], [1.5, 0, 0]], cs=1.0, queries=[[0.5, 0, 0]], radii=[1.0], multi=False),
              dict(atoms=[[0, 0, 0], [3, 4, 0], [-2, 1, 5]], cs=2.0, queries=[[0, 0, 0], [3, 3, 0]], radii=[5.0, 1.0], multi=True),
              dict(atoms=[[0, 0, 0], [0.375, 0.25, 0.125]], cs=0.3, queries=[[-4, 0, 0]], radii=[4.125], multi=False),
              dict(atoms=[[-9.062625, 0, 0], [-1.0626253, 0, 0]], cs=1.0, queries=[[-0.06262538, 0, 0]], radii=[1.0], multi=False)]:
        a, b = source_query(w), real_query(w)
        if a[0] != b[0]:
            raise AssertionError(f"translator: {w}: lowered {a} vs compiled {b}")
        n += 1
    return f"{n} concrete vectors: lowered source and compiled module agree; binary_state={st}"


# ----------------------------------------------------------------------------------- obligations
BOUND_LIM = {"quick": 64.0, "thorough": 512.0}
CELL_SIZES = [1.0, 0.5, 2.0, 4.0, 3.0, 1.5, 0.375]


def ob_real(tier):
    """REAL-number semantics of the lowered code (exact rationals, no rounding): coordinates, radius = m/8 with m a
    symbolic integer; cell sizes are constants.  Claim: atom returned <=> distance <= radius.  (Rounding: ob_float.)"""
    k = kernel("int")
    cases = []
    quick = tier == "quick"
    LIM = 64 if quick else 128
    for cs in (CELL_SIZES[:5] if quick else CELL_SIZES):
        for multi in (False, True):
            for natoms in (2,):
                A = [[z3.Int(f"a{i}{d}") for d in "xyz"] for i in range(natoms)]
                Q = [z3.Int(f"q{d}") for d in "xyz"]
                R = z3.Int("r")
                base = [z3.And(v >= -LIM, v <= LIM) for a in A for v in a] + [z3.And(v >= -3 * LIM, v <= 3 * LIM) for v in Q] + [R >= 0, R <= 2 * LIM]
                # arithmetic fact handed to the solver (checked by square_lemma()): a sum of squares bounded by R^2
                # bounds every term by R
                for a in A:
                    d2 = sum((a[d] - Q[d]) * (a[d] - Q[d]) for d in range(3))
                    for d in range(3):
                        base.append(z3.Implies(d2 <= R * R, z3.And(a[d] - Q[d] <= R, Q[d] - a[d] <= R)))

                def run(cs=cs, multi=multi, natoms=natoms, A=A, Q=Q, R=R):
                    atoms = [[CRat(c, 8) for c in a] for a in A]
                    mins = []
                    for d in range(3):
                        m = atoms[0][d]
                        for a in atoms[1:]:
                            m = m.min(a[d])
                        mins.append(m)
                    try:
                        rows = run_get_atoms(atoms, mins, CRat(cs), [[CRat(c, 8) for c in Q]], [CRat(R, 8)], multi, mode="int")
                    except MemorySafety:
                        return False
                    member = row_members(rows[0], natoms)
                    conds = []
                    for a in range(natoms):
                        d2 = sum((A[a][d] - Q[d]) * (A[a][d] - Q[d]) for d in range(3))
                        conds.append(member[a] == (d2 <= R * R))
                    return z3.And(*conds, *safety())
                cases.append(Case(f"get_atoms over the reals, cell size {cs}, {'per-query' if multi else 'scalar'} radius, {natoms} atoms",
                                  base, run,
                                  dict(atoms=[[_g(c) for c in a] for a in A], cs=cs, queries=[[_g(c) for c in Q]], radii=[_g(R)], multi=multi),
                                  real_query, timeout=300))
    return cases, dict(functions=k.functions_info(), note=validate() + "; " + square_lemma())


def square_lemma():
    """x^2 + y^2 + z^2 <= r^2 and r >= 0 imply |x| <= r over the integers (used as an assumption by ob_real)"""
    x, y, z, r = z3.Ints("x y z r")
    s = z3.Solver()
    s.set("timeout", 60000)
    s.add(r >= 0, x * x + y * y + z * z <= r * r, z3.Or(x > r, -x > r))
    res = s.check()
    if res != z3.unsat:
        raise AssertionError(f"square lemma not proved: {res}")
    return "square lemma proved (z3 nonlinear integer arithmetic, unbounded)"


def _g(m):
    """witness expression: the value m/8 as a z3 real (evaluated by the engine's `conc`)"""
    return z3.ToReal(m) / 8


def _fin(x, lim):
    return z3.And(z3.Not(z3.fpIsNaN(x)), z3.Not(z3.fpIsInf(x)), z3.fpLEQ(x, z3.FPVal(lim, F32)), z3.fpGEQ(x, z3.FPVal(-lim, F32)))


def _float_case(cs, slack, tier, converse=False):
    mn, ax, qx, r = [z3.FP(n, F32) for n in ("mn", "ax", "qx", "r")]
    lim = 1024.0 if not slack else BOUND_LIM[tier]
    base = [_fin(v, lim) for v in (mn, ax, qx, r)] + [z3.fpGEQ(ax, mn), z3.fpGEQ(r, z3.FPVal(0.0, F32))]
    # strictly within the radius in float64: fl64(|ax - qx|) < r implies |ax - qx| < r exactly (rounding is monotone
    # and r is representable)
    d64 = z3.fpAbs(z3.fpSub(RNE, z3.fpFPToFP(RNE, ax, F64), z3.fpFPToFP(RNE, qx, F64)))
    base.append(z3.fpLT(d64, z3.fpFPToFP(RNE, r, F64)))

    def run(cs=cs, mn=mn, ax=ax, qx=qx, r=r, slack=slack):
        zero = CFloat(0.0)
        # the cell list holds the atom at ax; the minimum corner mn <= ax is that of any other atoms (the replay
        # realises it with a second atom at mn)
        atoms = [[CFloat(ax), zero, zero]]
        k_ = kernel("bv")
        if slack:
            # the same query with one more cell layer than get_atoms computes: _Self.extra_layers widens the scan
            _Self.extra_layers = 1
        try:
            rows = run_get_atoms(atoms, [CFloat(mn), zero, zero], cs, [[CFloat(qx), zero, zero]], [CFloat(r)], False)
        except MemorySafety:
            return False
        finally:
            _Self.extra_layers = 0
        in32 = k_["squared_distance"](CFloat(qx), zero, zero, CFloat(ax), zero, zero) <= CFloat(r) * CFloat(r)
        in32 = in32.e if hasattr(in32, "e") else z3.BoolVal(bool(in32))
        if converse:
            # no false positive: a listed atom passes the float32 distance test of the source
            return z3.And(z3.Implies(row_members(rows[0], 1)[0], in32), *safety())
        # an atom that passes the source's own float32 distance test and is strictly inside the radius must be listed
        return z3.And(z3.Implies(in32, row_members(rows[0], 1)[0]), *safety())
    wit = dict(atoms=[[_fv(mn), 0, 0], [_fv(ax), 0, 0]], cs=cs, queries=[[_fv(qx), 0, 0]], radii=[_fv(r)], multi=False)
    return base, run, wit


def ob_float(tier):
    k = kernel("bv")
    cases = []
    for cs in ((1.0, 3.0) if tier == "quick" else (1.0, 3.0, 0.5, 0.375)):
        base, run, wit = _float_case(cs, False, tier)
        cases.append(Case(f"get_atoms, arbitrary float32 on one axis, cell size {cs}", base, run, wit,
                          real_query, timeout=400, solver_ms=180000, logic="QF_BVFP",
                          known=[("C14-cell-border-rounding", z3.BoolVal(True),
                                  dict(atoms=[[-9.0626249313354492, 0, 0], [-1.06262528896331787109375, 0, 0]], cs=1.0,
                                       queries=[[-0.062625378370285034, 0, 0]], radii=[1.0], multi=False),
                                  "float32 rounding of (x - min) / cell_size puts an atom and a query that are closer than the radius into cells more than ceil(radius / cell_size) apart: the atom is not returned")]))
        base, run, wit = _float_case(cs, False, tier, converse=True)
        cases.append(Case(f"get_atoms lists no atom that fails the float32 distance test, cell size {cs}", base[:-1], run, wit,
                          real_query, timeout=400, solver_ms=180000, logic="QF_BVFP"))
    return cases, dict(functions=k.functions_info(), note=validate())


def ob_float_slack(tier):
    """the rounding defect is confined to ONE cell layer: with cell radius + 1 every atom inside the radius is scanned"""
    k = kernel("bv")
    cases = []
    for cs in ((1.0,) if tier == "quick" else (1.0, 3.0, 0.5)):
        base, run, wit = _float_case(cs, True, tier)
        cases.append(Case(f"coverage with one extra cell layer, arbitrary float32 on one axis, cell size {cs}", base, run, wit,
                          lambda w: (True, "not replayable: the extra layer exists only in the model"), timeout=1500, solver_ms=1200000, logic="QF_BVFP"))
    return cases, dict(functions=k.functions_info(), note="get_atoms' scan widened by one layer in the stub of _get_atoms_in_cells; everything else as in ob_float")


class _FV:
    """marker: z3 FP variable whose model value is wanted as a Python float"""

    def __init__(self, e):
        self.e = e


def _fv(e):
    return e


def ob_bounds(tier):
    """__cinit__: cell_count = (((max - min) / cell_size) + 1).astype(int) in float32; every atom's index is below it"""
    k = kernel("bv")
    cases = []
    for cs in ((1.0, 3.0) if tier == "quick" else (1.0, 3.0, 0.5, 2.0, 1.5)):
        mn, ax, mx = [z3.FP(n, F32) for n in ("mn", "ax", "mx")]
        base = [_fin(v, BOUND_LIM[tier]) for v in (mn, ax, mx)] + [z3.fpGEQ(ax, mn), z3.fpLEQ(ax, mx)]

        def run(cs=cs, mn=mn, ax=ax, mx=mx):
            k._activate()
            zero = CFloat(0.0)
            me = _Self(k, [], [CFloat(mn), zero, zero], cs)
            i = me.cell_of([CFloat(ax), zero, zero])[0]
            count = ((CFloat(mx) - CFloat(mn)) / CFloat(f32(cs)) + 1).to_cint("int64")
            return z3.And(i.e >= 0, z3.SignExt(32, i.e) < count.e)
        cases.append(Case(f"cell index inside the grid, cell size {cs}", base, run,
                          dict(atoms=[[_fv(mn), 0, 0], [_fv(ax), 0, 0], [_fv(mx), 0, 0]], cs=cs, queries=[[_fv(ax), 0, 0]], radii=[0.0], multi=False),
                          real_query, timeout=900, solver_ms=600000, logic="QF_BVFP"))
    return cases, dict(functions=k.functions_info(), note="cell_count formula transcribed from CellList.__cinit__ (numpy float32 expression)")
