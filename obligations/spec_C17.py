from vf.sx.ob import SX

S = "src/biotite/structure/"
OBLIGATIONS = [
    SX("sx_segments", "sx_c17", "ob_segments", cls="E", quick=600, thorough=3000, parts={"quick": 8, "thorough": 16},
       functions=[S + "residues.py:*", S + "chains.py:*", S + "segments.py:*"],
       bounds="arrays of 0..4 (thorough 0..5) atoms; between consecutive atoms every combination of {chain change, res_id -1/0/+1, insertion-code toggle, residue-name toggle}; starts, counts, masks, starts_for, positions (forward, reversed, repeated indices; indices n, n+1, -1 refused), apply (scalar, float, array-valued over bool and float data), spread, iteration + concatenation, names vs per-atom recomputation"),
    SX("sx_molecules", "sx_c17", "ob_molecules", cls="E", quick=300, thorough=900, parts={"quick": 4, "thorough": 5},
       functions=[S + "molecules.py:get_molecule_indices/get_molecule_masks/molecule_iter", S + "bonds.pyx:find_connected (compiled)"],
       bounds="every bond graph on 1..4 (thorough 1..5) atoms (all 2^6 / 2^10 edge sets): molecules == connected components (union-find), find_connected from every root"),
    SX("kx_find_connected", "kx_c17", "ob_find_connected", cls="S", engine="KX", quick=300, thorough=1200, parts={"quick": 2, "thorough": 3},
       functions=[S + "bonds.pyx:_find_connected"], stubs=["neighbour table in the layout of get_all_bonds() with 2 slots per atom, symbolic and symmetric"],
       bounds="n = 2..3 (thorough 2..4) atoms, every symmetric neighbour table with <= 2 neighbours per atom, every root: visited mask == reachability closure, no out-of-bounds access"),
    SX("sx_long_chain", "sx_c17", "ob_long_chain", cls="E", quick=300, parts=1,
       functions=[S + "molecules.py:get_molecule_indices", S + "bonds.pyx:find_connected/_find_connected (compiled, recursive)"],
       bounds="linear chains of 10, 1000, 20000 and 200000 bonded atoms, each in a fresh interpreter"),
    SX("sx_large", "sx_c17", "ob_large", cls="E", quick=300, thorough=900, parts={"quick": 3, "thorough": 4},
       functions=[S + "molecules.py:get_molecule_indices/get_molecule_masks/molecule_iter", S + "bonds.pyx:find_connected (compiled)"],
       bounds="structures of 9000, 10001, 12000 (thorough also 70000) atoms: bonded runs of 1, 2 or 5 atoms separated by unbonded atoms, with long-range bonds joining every / every third / no pair of neighbouring runs: molecules, masks and iteration == union-find components (isolated atoms are molecules of their own)"),
]
EXPLANATION = "C17: residue, chain and molecule segmentation equals per-atom recomputation."
ASSUMPTIONS = []
