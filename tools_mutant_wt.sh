#!/bin/sh
# usage: tools_mutant_wt.sh <dir with patch.diff demo.py> <property> [check args...]
# Like tools_mutant.sh, but applies the change to the scratch worktree /tmp/wtm (create it with tools_mkwt.sh) and points
# the checks at it (VERIF_REPO / PYTHONPATH), so that /repo stays untouched while other runs use it.
D="$1"; P="$2"; shift 2
W=${WTM:-/tmp/wtm}
cd $W || exit 9
git diff --quiet || { echo "WORKTREE DIRTY"; exit 9; }
echo "== demo on unchanged tree"; PYTHONPATH=$W/src /venv/bin/python "$D/demo.py" >/dev/null 2>&1; echo "demo rc(orig)=$?"
git apply "$D/patch.diff" || { echo "PATCH FAILED"; exit 9; }
echo "== demo on mutated tree"; PYTHONPATH=$W/src /venv/bin/python "$D/demo.py" >/dev/null 2>&1; echo "demo rc(mut)=$?"
cd /verif && VERIF_REPO=$W PYTHONPATH=$W/src VERIF_EVIDENCE_DIR=${EVM:-/tmp/ev_mut} ./check "$P" "$@" 2>/dev/null | grep -E "VIOLATION|SUMMARY|HARNESS"
cd $W && git checkout -- . && git status --short | head -3
