#!/usr/bin/env python3
"""usage: tools_keep.py <srcdir> <seeded-id> <property> <caught: yes|no|partial> "<which obligations / note>" """
import json, os, shutil, sys
src, sid, prop, caught, note = sys.argv[1:6]
dst = os.path.join("/verif/seeded", sid)
os.makedirs(dst, exist_ok=True)
for f in ("patch.diff", "demo.py", "c_patch.diff"):
    if os.path.exists(os.path.join(src, f)):
        shutil.copy(os.path.join(src, f), os.path.join(dst, f))
meta = json.load(open(os.path.join(src, "meta.json")))
meta.update(property=prop, confirmed="demo.py exits 0 on /repo HEAD and non-zero with patch.diff applied (tools_mutant.sh); sub-agent reported no new test failures",
            detected_by_quick=caught, detection_note=note)
json.dump(meta, open(os.path.join(dst, "meta.json"), "w"), indent=1)
print("kept", dst)
