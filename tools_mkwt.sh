#!/bin/sh
# usage: tools_mkwt.sh <dir>   -- scratch worktree of /repo HEAD with the compiled extensions copied in
set -e
D="$1"
[ -d "$D" ] || git -C /repo worktree add -q --detach "$D" HEAD
rsync -a --include='*/' --include='*.so' --include='version.py' --exclude='*' /repo/src/ "$D/src/"
echo "$D ready"
