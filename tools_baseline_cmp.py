#!/usr/bin/env python3
"""usage: tools_baseline_cmp.py <junit.xml>  -- every BASELINE stable_pass test must pass"""
import json, sys
import xml.etree.ElementTree as ET
base = set(json.load(open("/root/.vp/BASELINE.json"))["stable_pass"])
passed = set()
for tc in ET.parse(sys.argv[1]).getroot().iter("testcase"):
    if not any(ch.tag in ("failure", "error", "skipped") for ch in tc):
        passed.add(f"{tc.get('classname')}::{tc.get('name')}".replace("/tmp/wt_full", "/repo").replace("/tmp/wtm", "/repo"))
missing = sorted(base - passed)
print(f"baseline stable_pass={len(base)} passed_now={len(passed)} missing={len(missing)}")
for m in missing[:20]:
    print("  MISSING", m)
